package an

import (
	"go/constant"
	"go/token"
	"golang.org/x/tools/go/ssa"
)

// Inf stands for "unbounded" in path multiplicities.
const Inf = 1 << 30

// Interval is a [Lo,Hi] multiplicity.
type Interval struct{ Lo, Hi int }

func (a Interval) Add(b Interval) Interval {
	hi := a.Hi + b.Hi
	if a.Hi >= Inf || b.Hi >= Inf || hi >= Inf {
		hi = Inf
	}
	return Interval{a.Lo + b.Lo, hi}
}

func (a Interval) String() string {
	if a.Hi >= Inf {
		return "[" + itoa(a.Lo) + ",∞)"
	}
	return "[" + itoa(a.Lo) + "," + itoa(a.Hi) + "]"
}

func itoa(i int) string {
	if i == 0 {
		return "0"
	}
	neg := i < 0
	if neg {
		i = -i
	}
	var b []byte
	for i > 0 {
		b = append([]byte{byte('0' + i%10)}, b...)
		i /= 10
	}
	if neg {
		b = append([]byte{'-'}, b...)
	}
	return string(b)
}

// Exit describes one way out of a function with the multiplicity of the counted sites on paths to it.
type Exit struct {
	Instr ssa.Instruction // *ssa.Return or *ssa.Panic
	Count Interval
}

// PathCount computes, for every exit of fn, the minimum and maximum number of weighted site
// executions over all CFG paths from entry to that exit (analysis A). A `defer` is weighted at the
// Defer instruction (it runs once at exit iff the Defer executed). The synthetic recover block is
// not an entry.
func PathCount(fn *ssa.Function, weight func(ssa.Instruction) Interval) []Exit {
	return pathCountFrom(fn, fn.Blocks[0], 0, weight)
}

// PathCountFrom is PathCount starting after the given instruction.
func PathCountFrom(start ssa.Instruction, weight func(ssa.Instruction) Interval) []Exit {
	b := start.Block()
	idx := indexOf(start)
	return pathCountFrom(b.Parent(), b, idx+1, weight)
}

func indexOf(in ssa.Instruction) int {
	for i, x := range in.Block().Instrs {
		if x == in {
			return i
		}
	}
	return -1
}

// PathCountUntil is PathCountFrom where entering any block of `stop` also ends the path (reported as an
// exit whose Instr is that block's first instruction). Used to analyse one iteration of a loop.
func PathCountUntil(start ssa.Instruction, weight func(ssa.Instruction) Interval, stop map[*ssa.BasicBlock]bool) []Exit {
	b := start.Block()
	return pathCountFromStop(b.Parent(), b, indexOf(start), weight, stop)
}

func pathCountFrom(fn *ssa.Function, entry *ssa.BasicBlock, from int, weight func(ssa.Instruction) Interval) []Exit {
	return pathCountFromStop(fn, entry, from, weight, nil)
}

// pruneEdge, when set, removes CFG edges from the path count (the branch not taken when a condition is known).
var pruneEdge func(b *ssa.BasicBlock, succIdx int) bool

func pathCountFromStop(fn *ssa.Function, entry *ssa.BasicBlock, from int, weight func(ssa.Instruction) Interval, stop map[*ssa.BasicBlock]bool) []Exit {
	n := len(fn.Blocks)
	// node n is a virtual node: the suffix of the entry block starting at instruction `from`.
	w := make([]Interval, n+1)
	for _, b := range fn.Blocks {
		var acc Interval
		for i, in := range b.Instrs {
			iv := weight(in)
			acc = acc.Add(iv)
			if b == entry && i >= from {
				w[n] = w[n].Add(iv)
			}
		}
		w[b.Index] = acc
	}
	type edge struct{ from, to int }
	var edges []edge
	for _, b := range fn.Blocks {
		if stop[b] {
			continue // paths end on entering a stop block
		}
		for si, s := range b.Succs {
			if pruneEdge != nil && pruneEdge(b, si) {
				continue
			}
			edges = append(edges, edge{b.Index, s.Index})
		}
	}
	for si, s := range entry.Succs {
		if pruneEdge != nil && pruneEdge(entry, si) {
			continue
		}
		edges = append(edges, edge{n, s.Index})
	}
	for b := range stop {
		w[b.Index] = Interval{}
	}
	const unreached = -1
	lo := make([]int, n+1)
	hi := make([]int, n+1)
	for i := range lo {
		lo[i], hi[i] = unreached, unreached
	}
	lo[n], hi[n] = w[n].Lo, w[n].Hi
	relax := func() bool {
		changed := false
		for _, e := range edges {
			if lo[e.from] == unreached {
				continue
			}
			clo, chi := lo[e.from]+w[e.to].Lo, addHi(hi[e.from], w[e.to].Hi)
			if lo[e.to] == unreached || clo < lo[e.to] {
				lo[e.to] = clo
				changed = true
			}
			if hi[e.to] == unreached || chi > hi[e.to] {
				hi[e.to] = chi
				changed = true
			}
		}
		return changed
	}
	for rounds := 0; relax(); rounds++ {
		if rounds > 2*n+6 {
			// highs still growing: a cycle with positive weight. Saturate what keeps changing.
			prev := append([]int(nil), hi...)
			relax()
			for i := range hi {
				if hi[i] != prev[i] {
					hi[i] = Inf
				}
			}
			for k := 0; k < n+2; k++ {
				for _, e := range edges {
					if hi[e.from] >= Inf && hi[e.to] != unreached {
						hi[e.to] = Inf
					}
				}
			}
			for k := 0; k < 2*n+6; k++ {
				ch := false
				for _, e := range edges {
					if lo[e.from] != unreached && (lo[e.to] == unreached || lo[e.from]+w[e.to].Lo < lo[e.to]) {
						lo[e.to] = lo[e.from] + w[e.to].Lo
						ch = true
					}
				}
				if !ch {
					break
				}
			}
			break
		}
	}
	var exits []Exit
	addExit := func(b *ssa.BasicBlock, l, h int) {
		if len(b.Instrs) == 0 || l == unreached {
			return
		}
		last := b.Instrs[len(b.Instrs)-1]
		switch last.(type) {
		case *ssa.Return, *ssa.Panic:
			exits = append(exits, Exit{Instr: last, Count: Interval{l, h}})
		}
	}
	addExit(entry, lo[n], hi[n])
	for _, b := range fn.Blocks {
		if stop[b] {
			if lo[b.Index] != unreached && len(b.Instrs) > 0 {
				exits = append(exits, Exit{Instr: b.Instrs[0], Count: Interval{lo[b.Index], hi[b.Index]}})
			}
			continue
		}
		addExit(b, lo[b.Index], hi[b.Index])
	}
	return exits
}

func addHi(a, b int) int {
	if a >= Inf || b >= Inf || a+b >= Inf {
		return Inf
	}
	return a + b
}

// Total folds the exits' intervals into one (min of lows, max of highs); ok=false if no exit.
func Total(exits []Exit, includePanics bool) (Interval, bool) {
	first := true
	var t Interval
	for _, e := range exits {
		if _, isPanic := e.Instr.(*ssa.Panic); isPanic && !includePanics {
			continue
		}
		if first {
			t = e.Count
			first = false
			continue
		}
		if e.Count.Lo < t.Lo {
			t.Lo = e.Count.Lo
		}
		if e.Count.Hi > t.Hi {
			t.Hi = e.Count.Hi
		}
	}
	return t, !first
}

// CallWeight builds a weight function counting executions of calls whose callee satisfies pred,
// looking into module callees (function literals invoked in place, helpers) up to depth levels.
// `go` statements do not count (they run elsewhere); `defer` counts at the Defer instruction.
func CallWeight(pred func(call ssa.CallInstruction, callee *ssa.Function) bool, depth int) func(ssa.Instruction) Interval {
	memo := map[*ssa.Function]Interval{}
	var wf func(d int) func(ssa.Instruction) Interval
	wf = func(d int) func(ssa.Instruction) Interval {
		return func(in ssa.Instruction) Interval {
			c, ok := in.(ssa.CallInstruction)
			if !ok {
				return Interval{}
			}
			if _, isGo := in.(*ssa.Go); isGo {
				return Interval{}
			}
			callee := Callee(c)
			if pred(c, callee) {
				return Interval{1, 1}
			}
			if callee == nil || callee.Blocks == nil || d <= 0 || !inModule(callee) {
				return Interval{}
			}
			if t, special := specialised(c, callee, func() (Interval, bool) { return Total(PathCount(callee, wf(d-1)), false) }); special {
				return t
			}
			if iv, ok := memo[callee]; ok {
				return iv
			}
			memo[callee] = Interval{} // recursion guard
			t, ok := Total(PathCount(callee, wf(d-1)), false)
			if !ok {
				t = Interval{}
			}
			memo[callee] = t
			return t
		}
	}
	return wf(depth)
}

// specialised evaluates a callee's path count at a call site that steers it with constant boolean arguments
// (`report(stop bool, …)` called with true): only the branches those arguments select count at this site.
func specialised(c ssa.CallInstruction, callee *ssa.Function, count func() (Interval, bool)) (Interval, bool) {
	known := map[*ssa.Parameter]bool{}
	for i, a := range c.Common().Args {
		if k, isK := a.(*ssa.Const); isK && k.Value != nil && k.Value.Kind() == constant.Bool && i < len(callee.Params) {
			known[callee.Params[i]] = constant.BoolVal(k.Value)
		}
	}
	if len(known) == 0 {
		return Interval{}, false
	}
	saved := pruneEdge
	pruneEdge = func(b *ssa.BasicBlock, succIdx int) bool {
		if b.Parent() != callee {
			return saved != nil && saved(b, succIdx)
		}
		iff, isIf := b.Instrs[len(b.Instrs)-1].(*ssa.If)
		if !isIf {
			return false
		}
		cond := iff.Cond
		neg := false
		for {
			u, isU := cond.(*ssa.UnOp)
			if !isU || u.Op != token.NOT {
				break
			}
			cond, neg = u.X, !neg
		}
		p, isP := stripParamSpill(cond).(*ssa.Parameter)
		if !isP {
			return false
		}
		val, isKnown := known[p]
		if !isKnown {
			return false
		}
		if neg {
			val = !val
		}
		// successor 0 is taken when the condition is true
		return (succIdx == 0) != val
	}
	t, ok := count()
	pruneEdge = saved
	if !ok {
		t = Interval{}
	}
	return t, true
}

// ---- dominance ----

// Dominates reports whether instruction a executes before b on every path from entry to b.
func Dominates(a, b ssa.Instruction) bool {
	if a.Parent() != b.Parent() {
		return false
	}
	if a.Block() == b.Block() {
		return indexOf(a) < indexOf(b)
	}
	return a.Block().Dominates(b.Block())
}

// PostDom computes post-dominance on fn's CFG: pd(a,b) = every path from a to a function exit
// (return or panic) passes through b.
type PostDom struct {
	fn  *ssa.Function
	set []map[int]bool // block -> set of post-dominating blocks
}

func NewPostDom(fn *ssa.Function) *PostDom {
	n := len(fn.Blocks)
	all := func() map[int]bool {
		m := map[int]bool{}
		for i := 0; i < n; i++ {
			m[i] = true
		}
		return m
	}
	set := make([]map[int]bool, n)
	isExit := make([]bool, n)
	for _, b := range fn.Blocks {
		if len(b.Succs) == 0 {
			isExit[b.Index] = true
			set[b.Index] = map[int]bool{b.Index: true}
		} else {
			set[b.Index] = all()
		}
	}
	for changed := true; changed; {
		changed = false
		for i := n - 1; i >= 0; i-- {
			b := fn.Blocks[i]
			if isExit[i] {
				continue
			}
			var inter map[int]bool
			for _, s := range b.Succs {
				if inter == nil {
					inter = map[int]bool{}
					for k := range set[s.Index] {
						inter[k] = true
					}
				} else {
					for k := range inter {
						if !set[s.Index][k] {
							delete(inter, k)
						}
					}
				}
			}
			if inter == nil {
				inter = map[int]bool{}
			}
			inter[i] = true
			if len(inter) != len(set[i]) {
				set[i] = inter
				changed = true
			}
		}
	}
	return &PostDom{fn: fn, set: set}
}

// PostDominates: b is executed after a on every path from a to an exit.
func (p *PostDom) PostDominates(b, a ssa.Instruction) bool {
	if a.Parent() != p.fn || b.Parent() != p.fn {
		return false
	}
	if a.Block() == b.Block() {
		return indexOf(a) < indexOf(b)
	}
	return p.set[a.Block().Index][b.Block().Index]
}

// ReachableFrom reports whether b can execute after a (CFG reachability).
func ReachableFrom(a, b ssa.Instruction) bool {
	if a.Parent() != b.Parent() {
		return false
	}
	if a.Block() == b.Block() && indexOf(a) < indexOf(b) {
		return true
	}
	seen := map[*ssa.BasicBlock]bool{}
	var stack []*ssa.BasicBlock
	stack = append(stack, a.Block().Succs...)
	for len(stack) > 0 {
		x := stack[len(stack)-1]
		stack = stack[:len(stack)-1]
		if seen[x] {
			continue
		}
		seen[x] = true
		if x == b.Block() {
			return true
		}
		stack = append(stack, x.Succs...)
	}
	return false
}

// EscapesWithout searches forward from just after start for a path to a return that does not
// execute any instruction satisfying stop; it returns that return (nil if every path is stopped).
func EscapesWithout(start ssa.Instruction, stop func(ssa.Instruction) bool) ssa.Instruction {
	type item struct {
		b    *ssa.BasicBlock
		from int
	}
	seen := map[*ssa.BasicBlock]bool{}
	stack := []item{{start.Block(), indexOf(start) + 1}}
	for len(stack) > 0 {
		it := stack[len(stack)-1]
		stack = stack[:len(stack)-1]
		stopped := false
		for i := it.from; i < len(it.b.Instrs); i++ {
			in := it.b.Instrs[i]
			if stop(in) {
				stopped = true
				break
			}
			if _, ok := in.(*ssa.Return); ok {
				return in
			}
		}
		if stopped {
			continue
		}
		for _, s := range it.b.Succs {
			if !seen[s] {
				seen[s] = true
				stack = append(stack, item{s, 0})
			}
		}
	}
	return nil
}

// InLoop reports whether the instruction's block lies on a CFG cycle.
func InLoop(in ssa.Instruction) bool {
	b := in.Block()
	seen := map[*ssa.BasicBlock]bool{}
	stack := append([]*ssa.BasicBlock(nil), b.Succs...)
	for len(stack) > 0 {
		x := stack[len(stack)-1]
		stack = stack[:len(stack)-1]
		if x == b {
			return true
		}
		if seen[x] {
			continue
		}
		seen[x] = true
		stack = append(stack, x.Succs...)
	}
	return false
}

func inModule(fn *ssa.Function) bool {
	for fn != nil && fn.Pkg == nil && fn.Parent() != nil {
		fn = fn.Parent()
	}
	if fn == nil {
		return false
	}
	p := fn.Pkg
	if p == nil && fn.Origin() != nil {
		p = fn.Origin().Pkg
	}
	return p != nil && p.Pkg != nil && len(p.Pkg.Path()) >= len(modPath) && p.Pkg.Path()[:len(modPath)] == modPath
}

const modPath = "github.com/form3tech-oss/f1/v2"

// InstrWeight builds a weight function counting executions of instructions satisfying pred, looking into
// module callees (helpers, literals invoked in place) up to depth levels; `go` statements are not followed.
func InstrWeight(pred func(ssa.Instruction) bool, depth int) func(ssa.Instruction) Interval {
	memo := map[*ssa.Function]Interval{}
	var wf func(d int) func(ssa.Instruction) Interval
	wf = func(d int) func(ssa.Instruction) Interval {
		return func(in ssa.Instruction) Interval {
			if pred(in) {
				return Interval{1, 1}
			}
			c, ok := in.(ssa.CallInstruction)
			if !ok {
				return Interval{}
			}
			if _, isGo := in.(*ssa.Go); isGo {
				return Interval{}
			}
			callee := Callee(c)
			if callee == nil || callee.Blocks == nil || d <= 0 || !inModule(callee) {
				return Interval{}
			}
			if t, special := specialised(c, callee, func() (Interval, bool) { return Total(PathCount(callee, wf(d-1)), true) }); special {
				return t
			}
			if iv, ok := memo[callee]; ok {
				return iv
			}
			memo[callee] = Interval{}
			t, ok := Total(PathCount(callee, wf(d-1)), true)
			if !ok {
				t = Interval{}
			}
			memo[callee] = t
			return t
		}
	}
	return wf(depth)
}

// ReachableFromFeasible is ReachableFrom that does not follow a branch whose condition is a boolean phi with a
// constant on the edge by which the path entered the phi's block (a loop flag: `for running { … running = false }`).
func ReachableFromFeasible(a, b ssa.Instruction) bool {
	if a.Parent() != b.Parent() {
		return false
	}
	if a.Block() == b.Block() && indexOf(a) < indexOf(b) {
		return true
	}
	type st struct{ blk, pred *ssa.BasicBlock }
	seen := map[st]bool{}
	var stack []st
	push := func(from *ssa.BasicBlock) {
		for _, s := range from.Succs {
			stack = append(stack, st{s, from})
		}
	}
	push(a.Block())
	for len(stack) > 0 {
		x := stack[len(stack)-1]
		stack = stack[:len(stack)-1]
		if seen[x] {
			continue
		}
		seen[x] = true
		if x.blk == b.Block() {
			return true
		}
		// a branch decided by the way this block was entered
		if iff, ok := x.blk.Instrs[len(x.blk.Instrs)-1].(*ssa.If); ok {
			cond := iff.Cond
			neg := false
			for {
				u, isU := cond.(*ssa.UnOp)
				if !isU || u.Op != token.NOT {
					break
				}
				cond, neg = u.X, !neg
			}
			if phi, isPhi := cond.(*ssa.Phi); isPhi && phi.Block() == x.blk {
				for k, pb := range x.blk.Preds {
					if pb != x.pred {
						continue
					}
					if kc, isK := phi.Edges[k].(*ssa.Const); isK && kc.Value != nil && kc.Value.Kind() == constant.Bool {
						val := constant.BoolVal(kc.Value) != neg
						if val {
							stack = append(stack, st{x.blk.Succs[0], x.blk})
						} else {
							stack = append(stack, st{x.blk.Succs[1], x.blk})
						}
						goto next
					}
				}
			}
		}
		for _, s := range x.blk.Succs {
			stack = append(stack, st{s, x.blk})
		}
	next:
	}
	return false
}
