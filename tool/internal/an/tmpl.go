package an

import (
	"fmt"
	"go/types"
	"strings"
	"text/template/parse"
	"unicode"
	"unicode/utf8"
)

// TemplateIssue is a way executing the template can fail, found by type-checking it (analysis J).
type TemplateIssue struct {
	Node string
	Msg  string
}

// TemplateChecker type-checks a text/template parse tree against the Go type of its data.
type TemplateChecker struct {
	Funcs  map[string]*types.Signature
	Issues []TemplateIssue
	Fields int // field/method references resolved
	Calls  int // function calls checked
	// guarded holds the field chains known non-nil/true by an enclosing if/with
	guarded []string
}

var tmplBuiltins = map[string]bool{"and": true, "or": true, "not": true, "len": true, "index": true, "slice": true, "print": true, "printf": true, "println": true,
	"html": true, "js": true, "urlquery": true, "eq": true, "ne": true, "lt": true, "le": true, "gt": true, "ge": true, "call": true}

// ParseTemplate parses text with the function names known to the template.
func ParseTemplate(name, text string, funcs map[string]*types.Signature) (*parse.Tree, error) {
	fm := map[string]any{}
	for k := range funcs {
		fm[k] = true
	}
	for k := range tmplBuiltins {
		fm[k] = true
	}
	trees, err := parse.Parse(name, text, "{{", "}}", fm)
	if err != nil {
		return nil, err
	}
	t := trees[name]
	if t == nil {
		return nil, fmt.Errorf("template %q not defined by its text", name)
	}
	return t, nil
}

func (tc *TemplateChecker) issue(n parse.Node, format string, a ...any) {
	tc.Issues = append(tc.Issues, TemplateIssue{Node: n.String(), Msg: fmt.Sprintf(format, a...)})
}

// Check walks the tree with dot bound to data.
func (tc *TemplateChecker) Check(t *parse.Tree, data types.Type) {
	tc.list(t.Root, data)
}

func (tc *TemplateChecker) list(l *parse.ListNode, dot types.Type) {
	if l == nil {
		return
	}
	for _, n := range l.Nodes {
		switch x := n.(type) {
		case *parse.ActionNode:
			tc.pipe(x.Pipe, dot)
		case *parse.IfNode:
			tc.branch(&x.BranchNode, dot, false)
		case *parse.WithNode:
			tc.branch(&x.BranchNode, dot, true)
		case *parse.RangeNode:
			t := tc.pipe(x.Pipe, dot)
			elem := types.Type(nil)
			if t != nil {
				switch u := t.Underlying().(type) {
				case *types.Slice:
					elem = u.Elem()
				case *types.Array:
					elem = u.Elem()
				case *types.Map:
					elem = u.Elem()
				case *types.Chan:
					elem = u.Elem()
				default:
					tc.issue(x, "range over %s", t)
				}
			}
			tc.list(x.List, elem)
			tc.list(x.ElseList, dot)
		case *parse.TextNode, *parse.CommentNode:
		case *parse.TemplateNode:
			tc.issue(x, "template invocation %q is not checked", x.Name)
		default:
			tc.issue(n, "unsupported node %T", n)
		}
	}
}

func (tc *TemplateChecker) branch(b *parse.BranchNode, dot types.Type, with bool) {
	t := tc.pipe(b.Pipe, dot)
	g := ""
	if len(b.Pipe.Cmds) == 1 && len(b.Pipe.Cmds[0].Args) == 1 {
		if f, ok := b.Pipe.Cmds[0].Args[0].(*parse.FieldNode); ok {
			g = strings.Join(f.Ident, ".")
		}
	}
	if g != "" {
		tc.guarded = append(tc.guarded, g)
	}
	if with {
		tc.list(b.List, t)
	} else {
		tc.list(b.List, dot)
	}
	if g != "" {
		tc.guarded = tc.guarded[:len(tc.guarded)-1]
	}
	tc.list(b.ElseList, dot)
}

func (tc *TemplateChecker) pipe(p *parse.PipeNode, dot types.Type) types.Type {
	if p == nil {
		return nil
	}
	if len(p.Decl) > 0 {
		tc.issue(p, "variable declarations are not modelled")
	}
	var cur types.Type
	have := false
	for _, cmd := range p.Cmds {
		cur = tc.command(cmd, dot, cur, have)
		have = true
	}
	return cur
}

func (tc *TemplateChecker) command(cmd *parse.CommandNode, dot types.Type, final types.Type, hasFinal bool) types.Type {
	first := cmd.Args[0]
	switch x := first.(type) {
	case *parse.IdentifierNode:
		var args []types.Type
		var nodes []parse.Node
		for _, a := range cmd.Args[1:] {
			args = append(args, tc.arg(a, dot))
			nodes = append(nodes, a)
		}
		if hasFinal {
			args = append(args, final)
			nodes = append(nodes, cmd)
		}
		return tc.call(x, args, nodes)
	case *parse.FieldNode:
		if len(cmd.Args) > 1 || hasFinal {
			tc.issue(cmd, "method call with arguments is not modelled")
			return nil
		}
		return tc.chain(x, dot, x.Ident)
	case *parse.ChainNode:
		base := tc.arg(x.Node, dot)
		return tc.chain(x, base, x.Field)
	case *parse.PipeNode:
		return tc.pipe(x, dot)
	default:
		if len(cmd.Args) > 1 {
			tc.issue(cmd, "non-function %s with arguments", first)
		}
		return tc.arg(first, dot)
	}
}

func (tc *TemplateChecker) arg(n parse.Node, dot types.Type) types.Type {
	switch x := n.(type) {
	case *parse.DotNode:
		return dot
	case *parse.FieldNode:
		return tc.chain(x, dot, x.Ident)
	case *parse.ChainNode:
		return tc.chain(x, tc.arg(x.Node, dot), x.Field)
	case *parse.PipeNode:
		return tc.pipe(x, dot)
	case *parse.StringNode:
		return types.Typ[types.UntypedString]
	case *parse.BoolNode:
		return types.Typ[types.UntypedBool]
	case *parse.NumberNode:
		if x.IsInt || x.IsUint {
			return types.Typ[types.UntypedInt]
		}
		return types.Typ[types.UntypedFloat]
	case *parse.NilNode:
		return types.Typ[types.UntypedNil]
	case *parse.IdentifierNode:
		return tc.call(x, nil, nil)
	case *parse.VariableNode:
		tc.issue(n, "variables are not modelled")
	}
	return nil
}

func exported(name string) bool {
	r, _ := utf8.DecodeRuneInString(name)
	return unicode.IsUpper(r)
}

// chain resolves .A.B.C starting from t.
func (tc *TemplateChecker) chain(n parse.Node, t types.Type, idents []string) types.Type {
	path := ""
	for i, id := range idents {
		if t == nil {
			tc.issue(n, "cannot resolve .%s: type of its receiver unknown", id)
			return nil
		}
		// going through a nilable value needs a guard
		if i > 0 {
			switch t.Underlying().(type) {
			case *types.Pointer, *types.Interface:
				if !tc.isGuarded(path) {
					tc.issue(n, ".%s is evaluated on %s (%s), which may be nil: rendering fails with a nil-pointer error", id, path, t)
				}
			}
		}
		tc.Fields++
		nt, why := fieldOrMethod(t, id)
		if nt == nil {
			tc.issue(n, "can't evaluate field %s in type %s: %s (text/template fails at execution)", id, t, why)
			return nil
		}
		t = nt
		if path == "" {
			path = id
		} else {
			path += "." + id
		}
	}
	return t
}

func (tc *TemplateChecker) isGuarded(path string) bool {
	for _, g := range tc.guarded {
		if g == path {
			return true
		}
	}
	return false
}

func fieldOrMethod(t types.Type, name string) (types.Type, string) {
	if !exported(name) {
		return nil, "unexported"
	}
	// methods first (value method set; pointer receivers are reachable only for addressable values)
	ms := types.NewMethodSet(t)
	if sel := ms.Lookup(nil, name); sel != nil {
		sig := sel.Type().(*types.Signature)
		if sig.Params().Len() != 0 {
			return nil, "method needs arguments"
		}
		switch sig.Results().Len() {
		case 1:
			return sig.Results().At(0).Type(), ""
		case 2:
			return sig.Results().At(0).Type(), ""
		}
		return nil, "method has no result"
	}
	u := t.Underlying()
	if p, ok := u.(*types.Pointer); ok {
		u = p.Elem().Underlying()
	}
	switch s := u.(type) {
	case *types.Struct:
		for i := 0; i < s.NumFields(); i++ {
			if s.Field(i).Name() == name {
				return s.Field(i).Type(), ""
			}
		}
		// pointer-receiver method on a non-addressable value
		if sel := types.NewMethodSet(types.NewPointer(t)).Lookup(nil, name); sel != nil {
			return nil, "method has a pointer receiver but the value is not addressable"
		}
		return nil, "no such field or method"
	case *types.Map:
		return s.Elem(), ""
	}
	return nil, "not a struct, map or type with that method"
}

func (tc *TemplateChecker) call(id *parse.IdentifierNode, args []types.Type, nodes []parse.Node) types.Type {
	tc.Calls++
	if sig, ok := tc.Funcs[id.Ident]; ok {
		np := sig.Params().Len()
		if sig.Variadic() {
			if len(args) < np-1 {
				tc.issue(id, "function %s needs at least %d arguments, got %d", id.Ident, np-1, len(args))
				return nil
			}
		} else if len(args) != np {
			tc.issue(id, "function %s takes %d arguments, got %d (text/template fails at execution)", id.Ident, np, len(args))
			return nil
		}
		for i, a := range args {
			var pt types.Type
			if sig.Variadic() && i >= np-1 {
				pt = sig.Params().At(np - 1).Type().(*types.Slice).Elem()
			} else {
				pt = sig.Params().At(i).Type()
			}
			if a == nil {
				tc.issue(id, "argument %d of %s has unknown type", i+1, id.Ident)
				continue
			}
			if !assignableForTemplate(a, pt) {
				tc.issue(id, "argument %d of %s has type %s, not assignable to %s (text/template fails at execution)", i+1, id.Ident, a, pt)
			}
		}
		switch sig.Results().Len() {
		case 1:
			return sig.Results().At(0).Type()
		case 2:
			tc.issue(id, "function %s can return an error: rendering can fail", id.Ident)
			return sig.Results().At(0).Type()
		}
		tc.issue(id, "function %s has no result", id.Ident)
		return nil
	}
	if !tmplBuiltins[id.Ident] {
		tc.issue(id, "function %q is not defined in the FuncMap", id.Ident)
		return nil
	}
	switch id.Ident {
	case "printf":
		if len(args) == 0 {
			tc.issue(id, "printf needs a format")
			return types.Typ[types.String]
		}
		tc.printf(id, nodes, args)
		return types.Typ[types.String]
	case "print", "println", "html", "js", "urlquery":
		return types.Typ[types.String]
	case "len":
		return types.Typ[types.Int]
	case "not", "eq", "ne", "lt", "le", "gt", "ge":
		return types.Typ[types.Bool]
	case "and", "or":
		if len(args) > 0 {
			return args[len(args)-1]
		}
	}
	return nil
}

// printf checks the verb count and the coarse verb/argument kind agreement.
func (tc *TemplateChecker) printf(id *parse.IdentifierNode, nodes []parse.Node, args []types.Type) {
	fn, ok := nodes[0].(*parse.StringNode)
	if !ok {
		return
	}
	var verbs []rune
	f := fn.Text
	for i := 0; i < len(f); i++ {
		if f[i] != '%' {
			continue
		}
		j := i + 1
		for j < len(f) && strings.ContainsRune("+-# 0123456789.", rune(f[j])) {
			j++
		}
		if j < len(f) {
			if f[j] != '%' {
				verbs = append(verbs, rune(f[j]))
			}
			i = j
		}
	}
	if len(verbs) != len(args)-1 {
		tc.issue(id, "printf %q has %d verbs for %d arguments", f, len(verbs), len(args)-1)
		return
	}
	for i, v := range verbs {
		a := args[i+1]
		if a == nil {
			continue
		}
		b, isBasic := a.Underlying().(*types.Basic)
		switch v {
		case 'd':
			if !isBasic || b.Info()&types.IsInteger == 0 {
				tc.issue(id, "printf verb %%d applied to %s", a)
			}
		case 'f', 'g', 'e':
			if !isBasic || b.Info()&types.IsFloat == 0 {
				tc.issue(id, "printf verb %%%c applied to %s", v, a)
			}
		}
	}
}

func assignableForTemplate(a, p types.Type) bool {
	if types.AssignableTo(a, p) {
		return true
	}
	if b, ok := a.(*types.Basic); ok && b.Info()&types.IsUntyped != 0 {
		pb, ok := p.Underlying().(*types.Basic)
		if !ok {
			_, isIface := p.Underlying().(*types.Interface)
			return isIface
		}
		switch b.Kind() {
		case types.UntypedInt:
			return pb.Info()&types.IsNumeric != 0
		case types.UntypedFloat:
			return pb.Info()&types.IsFloat != 0
		case types.UntypedString:
			return pb.Info()&types.IsString != 0
		case types.UntypedBool:
			return pb.Info()&types.IsBoolean != 0
		}
	}
	return false
}
