// Package an holds the shared analyses of DESIGN.md §3. Everything works on resolved IR.
package an

import (
	"go/constant"
	"go/token"
	"go/types"
	"strings"

	"golang.org/x/tools/go/ssa"

	"f1verif/internal/core"
)

// Unwrap follows synthetic wrappers (bound-method closures, thunks, promoted-method wrappers)
// to the declared function they forward to.
func Unwrap(fn *ssa.Function) *ssa.Function {
	for depth := 0; fn != nil && depth < 4; depth++ {
		if fn.Synthetic == "" || strings.HasPrefix(fn.Synthetic, "instance of") || fn.Blocks == nil {
			return fn
		}
		var next *ssa.Function
		for _, b := range fn.Blocks {
			for _, in := range b.Instrs {
				if c, ok := in.(ssa.CallInstruction); ok {
					if t := c.Common().StaticCallee(); t != nil {
						next = t
					}
				}
			}
		}
		if next == nil {
			return fn
		}
		fn = next
	}
	return fn
}

// Callee resolves the statically known callee of a call (through closures and wrappers), or nil.
func Callee(call ssa.CallInstruction) *ssa.Function {
	cc := call.Common()
	if cc.IsInvoke() {
		return nil
	}
	if f := cc.StaticCallee(); f != nil {
		return Unwrap(f)
	}
	switch v := cc.Value.(type) {
	case *ssa.MakeClosure:
		if f, ok := v.Fn.(*ssa.Function); ok {
			return Unwrap(f)
		}
	}
	return nil
}

// IsFunc reports whether fn is the function/method with the given package path and name
// ("(*T).m" / "(T).m" / "f"); generic instances match their origin.
func IsFunc(fn *ssa.Function, pkgPath, name string) bool {
	if fn == nil {
		return false
	}
	if o := fn.Origin(); o != nil {
		fn = o
	}
	obj := fn.Object()
	if obj == nil || obj.Pkg() == nil || obj.Pkg().Path() != pkgPath {
		return false
	}
	return shortName(fn) == name
}

func shortName(fn *ssa.Function) string {
	if recv := fn.Signature.Recv(); recv != nil {
		t := recv.Type()
		ptr := ""
		if p, ok := t.(*types.Pointer); ok {
			t = p.Elem()
			ptr = "*"
		}
		tn := "?"
		if n, ok := t.(*types.Named); ok {
			tn = n.Obj().Name()
		}
		return "(" + ptr + tn + ")." + fn.Name()
	}
	return fn.Name()
}

// CallsTo lists the call instructions (call, go, defer) in fn whose static callee satisfies pred.
func CallsTo(fn *ssa.Function, pred func(*ssa.Function) bool) []ssa.CallInstruction {
	var out []ssa.CallInstruction
	for _, b := range fn.Blocks {
		for _, in := range b.Instrs {
			if c, ok := in.(ssa.CallInstruction); ok {
				if t := Callee(c); t != nil && pred(t) {
					out = append(out, c)
				}
			}
		}
	}
	return out
}

// AllCalls lists every call instruction in fn.
func AllCalls(fn *ssa.Function) []ssa.CallInstruction {
	var out []ssa.CallInstruction
	for _, b := range fn.Blocks {
		for _, in := range b.Instrs {
			if c, ok := in.(ssa.CallInstruction); ok {
				out = append(out, c)
			}
		}
	}
	return out
}

// Instrs visits every instruction of fn.
func Instrs(fn *ssa.Function, f func(ssa.Instruction)) {
	for _, b := range fn.Blocks {
		for _, in := range b.Instrs {
			f(in)
		}
	}
}

// WithAnon returns fn and all function literals nested in it.
func WithAnon(fn *ssa.Function) []*ssa.Function {
	out := []*ssa.Function{fn}
	for _, a := range fn.AnonFuncs {
		out = append(out, WithAnon(a)...)
	}
	return out
}

// Outermost returns the declared function enclosing fn.
func Outermost(fn *ssa.Function) *ssa.Function {
	for fn.Parent() != nil {
		fn = fn.Parent()
	}
	return fn
}

// FieldOfAddr returns the struct field addressed by a FieldAddr / read by a Field instruction.
func FieldOfAddr(v ssa.Value) *types.Var {
	switch x := v.(type) {
	case *ssa.FieldAddr:
		t := x.X.Type().Underlying()
		if p, ok := t.(*types.Pointer); ok {
			t = p.Elem().Underlying()
		}
		if st, ok := t.(*types.Struct); ok {
			return st.Field(x.Field)
		}
	case *ssa.Field:
		if st, ok := x.X.Type().Underlying().(*types.Struct); ok {
			return st.Field(x.Field)
		}
	}
	return nil
}

// SameField compares field objects, looking through generic instantiation by position+name.
func SameField(a, b *types.Var) bool {
	if a == nil || b == nil {
		return false
	}
	if a == b {
		return true
	}
	return a.Pos() == b.Pos() && a.Name() == b.Name() && a.Pos() != token.NoPos
}

// IsPkgFunc reports whether call's static callee is pkgPath.name (for functions outside the module).
func IsPkgFunc(call ssa.CallInstruction, pkgPath, name string) bool {
	f := Callee(call)
	return f != nil && IsFunc(f, pkgPath, name)
}

// MethodOn reports whether call is a static call of method `name` on a receiver whose named type is
// pkgPath.typeName, and returns the receiver argument.
func MethodOn(call ssa.CallInstruction, pkgPath, typeName, name string) (ssa.Value, bool) {
	f := Callee(call)
	if f == nil || f.Name() != name {
		return nil, false
	}
	if o := f.Origin(); o != nil {
		f = o
	}
	recv := f.Signature.Recv()
	if recv == nil {
		return nil, false
	}
	t := recv.Type()
	if p, ok := t.(*types.Pointer); ok {
		t = p.Elem()
	}
	n, ok := t.(*types.Named)
	if !ok || n.Obj().Pkg() == nil || n.Obj().Pkg().Path() != pkgPath || n.Origin().Obj().Name() != typeName {
		return nil, false
	}
	args := call.Common().Args
	if len(args) == 0 {
		return nil, false
	}
	return args[0], true
}

// AtomicOp describes a sync/atomic method call on a struct field: field, op name, the call.
type AtomicOp struct {
	Field *types.Var
	Op    string
	Call  ssa.CallInstruction
	Fn    *ssa.Function
}

// AtomicOps finds all sync/atomic typed-value method calls whose receiver is the address of a struct field.
func AtomicOps(fns []*ssa.Function) []AtomicOp {
	var out []AtomicOp
	for _, fn := range fns {
		for _, c := range AllCalls(fn) {
			f := Callee(c)
			if f == nil || f.Pkg == nil || f.Pkg.Pkg.Path() != "sync/atomic" || f.Signature.Recv() == nil {
				continue
			}
			args := c.Common().Args
			if len(args) == 0 {
				continue
			}
			if fld := FieldOfAddr(args[0]); fld != nil {
				out = append(out, AtomicOp{Field: fld, Op: f.Name(), Call: c, Fn: fn})
			}
		}
	}
	return out
}

// IsBuiltinCall reports whether call invokes the named builtin (close, panic, recover, len, append…).
func IsBuiltinCall(call ssa.CallInstruction, name string) bool {
	b, ok := call.Common().Value.(*ssa.Builtin)
	return ok && b.Name() == name
}

// DynCallType returns the named type of the called value for a dynamic call through a function value
// (e.g. testing.RunFn), or nil.
func DynCallType(call ssa.CallInstruction) *types.Named {
	cc := call.Common()
	if cc.IsInvoke() || Callee(call) != nil {
		return nil
	}
	if _, ok := cc.Value.(*ssa.Builtin); ok {
		return nil
	}
	t := cc.Value.Type()
	if n, ok := t.(*types.Named); ok {
		return n
	}
	return nil
}

// IsNamed reports whether t (or *t) is the named type pkgPath.name.
func IsNamed(t types.Type, pkgPath, name string) bool {
	if p, ok := t.(*types.Pointer); ok {
		t = p.Elem()
	}
	n, ok := t.(*types.Named)
	return ok && n.Obj().Pkg() != nil && n.Obj().Pkg().Path() == pkgPath && n.Origin().Obj().Name() == name
}

// Pos is a convenience wrapper.
func Pos(c *core.Ctx, in ssa.Instruction) string { return c.Pos(core.InstrPos(in)) }

// Referrers returns the instructions using v (nil-safe).
func Referrers(v ssa.Value) []ssa.Instruction {
	if r := v.Referrers(); r != nil {
		return *r
	}
	return nil
}

// Terminal strips loads, conversions and single-return module getters from v and returns the
// underlying value (e.g. the FieldAddr a getter returns).
func Terminal(v ssa.Value) ssa.Value {
	for i := 0; i < 12 && v != nil; i++ {
		switch x := v.(type) {
		case *ssa.UnOp:
			if x.Op == token.MUL {
				v = x.X
				continue
			}
			return v
		case *ssa.Convert:
			v = x.X
		case *ssa.ChangeType:
			v = x.X
		case *ssa.MakeInterface:
			v = x.X
		case *ssa.Call:
			f := Callee(x)
			if f == nil || f.Blocks == nil || !core.InModule(f) {
				return v
			}
			rets := Returns(f)
			if cond := BoolIdentity(f); cond != nil {
				v = cond
				continue
			}
			if len(rets) != 1 || len(rets[0].Results) != 1 {
				return v
			}
			v = rets[0].Results[0]
		default:
			return v
		}
	}
	return v
}

// BoolIdentity: f is `if x { return true }; return false` — it returns x. The condition is handed back (nil
// when f has another shape).
func BoolIdentity(f *ssa.Function) ssa.Value {
	if f == nil || len(f.Blocks) != 3 || f.Signature.Results().Len() != 1 {
		return nil
	}
	entry := f.Blocks[0]
	iff, ok := entry.Instrs[len(entry.Instrs)-1].(*ssa.If)
	if !ok {
		return nil
	}
	onlyReturn := func(b *ssa.BasicBlock, want bool) bool {
		if len(b.Instrs) != 1 {
			return false
		}
		ret, ok := b.Instrs[0].(*ssa.Return)
		if !ok || len(ret.Results) != 1 {
			return false
		}
		k, ok := ret.Results[0].(*ssa.Const)
		return ok && k.Value != nil && k.Value.Kind() == constant.Bool && constant.BoolVal(k.Value) == want
	}
	if onlyReturn(entry.Succs[0], true) && onlyReturn(entry.Succs[1], false) {
		return iff.Cond
	}
	return nil
}

// TerminalField returns the struct field a value is ultimately read from, with the type owning it.
func TerminalField(v ssa.Value) (*types.Var, types.Type) {
	t := Terminal(v)
	switch x := t.(type) {
	case *ssa.FieldAddr:
		return FieldOfAddr(x), x.X.Type()
	case *ssa.Field:
		return FieldOfAddr(x), x.X.Type()
	}
	return nil, nil
}

// Returns lists the return instructions of fn (excluding the synthetic recover block's).
func Returns(fn *ssa.Function) []*ssa.Return {
	var out []*ssa.Return
	for _, b := range fn.Blocks {
		if fn.Recover != nil && b == fn.Recover {
			continue
		}
		for _, in := range b.Instrs {
			if r, ok := in.(*ssa.Return); ok {
				out = append(out, r)
			}
		}
	}
	return out
}

// GoTargetOf returns the `go` statements (anywhere in the module functions given) that start fn.
func GoTargetOf(fns []*ssa.Function, fn *ssa.Function) []*ssa.Go {
	var out []*ssa.Go
	for _, f := range fns {
		for _, g := range GoSites(f) {
			if Callee(g) == fn {
				out = append(out, g)
			}
		}
	}
	return out
}

// ReachesCall reports whether fn calls (directly or through module callees, up to depth) a function
// satisfying pred; `go` statements are not followed.
func ReachesCall(fn *ssa.Function, depth int, pred func(*ssa.Function) bool) bool {
	seen := map[*ssa.Function]bool{}
	var walk func(f *ssa.Function, d int) bool
	walk = func(f *ssa.Function, d int) bool {
		if f == nil || seen[f] || f.Blocks == nil {
			return false
		}
		seen[f] = true
		for _, c := range AllCalls(f) {
			if _, isGo := c.(*ssa.Go); isGo {
				continue
			}
			t := Callee(c)
			if t == nil {
				continue
			}
			if pred(t) {
				return true
			}
			if d > 0 && core.InModule(t) && walk(t, d-1) {
				return true
			}
		}
		return false
	}
	return walk(fn, depth)
}

// Strip removes loads and conversions only (no getter inlining).
func Strip(v ssa.Value) ssa.Value {
	for i := 0; i < 12 && v != nil; i++ {
		switch x := v.(type) {
		case *ssa.UnOp:
			if x.Op == token.MUL {
				if a, ok := x.X.(*ssa.Alloc); ok {
					if st := reachingStore(a, x); st != nil {
						v = st.Val
						continue
					}
					if sts := StoresTo(a); len(sts) == 1 {
						v = sts[0].Val
						continue
					}
				}
				v = x.X
				continue
			}
			return v
		case *ssa.Convert:
			v = x.X
		case *ssa.ChangeType:
			v = x.X
		case *ssa.MakeInterface:
			v = x.X
		default:
			return v
		}
	}
	return v
}

// FieldIn is TerminalField that also accepts a field of a struct nested by value in the named type: for
// `x.group.f` (group a struct-typed value field of T) it answers "f, a field of T" as it does for `x.f`. The owner
// returned is the first type along the chain x.group.f → x.group → x that is the named type asked for.
func FieldIn(v ssa.Value, pkgPath, name string) *types.Var {
	t := Terminal(v)
	var fld *types.Var
	for i := 0; i < 4; i++ {
		var base ssa.Value
		switch x := t.(type) {
		case *ssa.FieldAddr:
			if fld == nil {
				fld = FieldOfAddr(x)
			}
			base = x.X
		case *ssa.Field:
			if fld == nil {
				fld = FieldOfAddr(x)
			}
			base = x.X
		default:
			return nil
		}
		if IsNamed(base.Type(), pkgPath, name) {
			return fld
		}
		t = base
	}
	return nil
}

// BaseIn climbs from a field address through by-value nesting to the base value of the named type, or nil.
func BaseIn(v ssa.Value, pkgPath, name string) ssa.Value {
	t := v
	for i := 0; i < 4; i++ {
		fa, ok := t.(*ssa.FieldAddr)
		if !ok {
			return nil
		}
		if IsNamed(fa.X.Type(), pkgPath, name) {
			return fa.X
		}
		t = fa.X
	}
	return nil
}
