package an

import (
	"go/token"
	"go/types"

	"golang.org/x/tools/go/ssa"

	"f1verif/internal/core"
)

// Frame is one level of a virtually inlined call chain.
type Frame struct {
	Fn     *ssa.Function
	Site   ssa.CallInstruction // the call in Parent.Fn that entered this frame (nil for the root)
	Parent *Frame
}

// Event is an instruction seen from a root function, possibly inside helpers it calls synchronously.
type Event struct {
	Instr ssa.Instruction
	Frame *Frame
}

// Root returns the instruction of the root function at which the event happens (the outermost call site,
// or the instruction itself).
func (e Event) Root() ssa.Instruction {
	in := e.Instr
	for f := e.Frame; f.Parent != nil; f = f.Parent {
		in = f.Site
	}
	return in
}

// RootFn is the root function of the event.
func (e Event) RootFn() *ssa.Function {
	f := e.Frame
	for f.Parent != nil {
		f = f.Parent
	}
	return f.Fn
}

// Call returns the event's instruction as a call, or nil.
func (e Event) Call() ssa.CallInstruction {
	c, _ := e.Instr.(ssa.CallInstruction)
	return c
}

func paramIndex(p *ssa.Parameter) int {
	for i, q := range p.Parent().Params {
		if q == p {
			return i
		}
	}
	return -1
}

// Translate maps a value of the event's frame to the outermost frame in which it is defined: parameters of
// helper frames (also when spilled to a local by the compiler) are replaced by the actual arguments.
func (e Event) Translate(v ssa.Value) ssa.Value {
	frameOf := func(fn *ssa.Function) *Frame {
		for f := e.Frame; f != nil; f = f.Parent {
			if f.Fn == fn {
				return f
			}
		}
		return nil
	}
	for i := 0; i < 10; i++ {
		v = stripParamSpill(v)
		switch x := v.(type) {
		case *ssa.Parameter:
			f := frameOf(x.Parent())
			if f == nil || f.Parent == nil {
				return v
			}
			idx := paramIndex(x)
			args := f.Site.Common().Args
			if idx < 0 || idx >= len(args) {
				return v
			}
			v = args[idx]
		case *ssa.FreeVar:
			// a free variable of a literal invoked in place: its binding in the enclosing function
			f := frameOf(x.Parent())
			if f == nil || f.Parent == nil {
				return v
			}
			b := FreeVarBinding(x)
			al, isAl := b.(*ssa.Alloc)
			if !isAl {
				return v
			}
			sts := StoresTo(al)
			if len(sts) != 1 {
				return v
			}
			v = sts[0].Val
		default:
			return v
		}
	}
	return v
}

// stripParamSpill: `t0 = new T (p); *t0 = p; … *t0` → p
func stripParamSpill(v ssa.Value) ssa.Value {
	for i := 0; i < 6; i++ {
		switch x := v.(type) {
		case *ssa.UnOp:
			if x.Op != token.MUL {
				return v
			}
			a, ok := x.X.(*ssa.Alloc)
			if !ok {
				return v
			}
			sts := StoresTo(a)
			if len(sts) != 1 {
				return v
			}
			v = sts[0].Val
		case *ssa.ChangeType:
			v = x.X
		default:
			return v
		}
	}
	return v
}

// Inlinable is the default predicate for virtual inlining: a plain synchronous call of a module function of
// the same package with a body (helpers and function literals invoked in place).
func Inlinable(root *ssa.Function) func(call ssa.CallInstruction, callee *ssa.Function) bool {
	rel := core.RelPkg(root)
	return func(call ssa.CallInstruction, callee *ssa.Function) bool {
		// synchronous calls and deferred functions (they run in this frame, at its exit); never `go`
		if _, isGo := call.(*ssa.Go); isGo {
			return false
		}
		if callee == nil || callee.Blocks == nil {
			return false
		}
		if core.RelPkg(callee) == rel {
			return true
		}
		// a helper of another package of the module that is handed a function literal of this one (a higher-order
		// helper such as `guard(t, func(){ … })`): the literal runs inside it
		if core.InModule(callee) {
			for _, a := range call.Common().Args {
				if mc, ok := Strip(a).(*ssa.MakeClosure); ok {
					if f, isF := mc.Fn.(*ssa.Function); isF && f.Synthetic == "" && core.RelPkg(f) == rel {
						return true
					}
				}
			}
		}
		return false
	}
}

// Flatten visits every instruction of root and, recursively up to depth, of the helpers it calls.
func Flatten(root *ssa.Function, depth int, inlinable func(ssa.CallInstruction, *ssa.Function) bool, visit func(Event)) {
	if inlinable == nil {
		inlinable = Inlinable(root)
	}
	var walk func(fr *Frame, d int, stack map[*ssa.Function]bool)
	walk = func(fr *Frame, d int, stack map[*ssa.Function]bool) {
		for _, b := range fr.Fn.Blocks {
			if fr.Fn.Recover != nil && b == fr.Fn.Recover {
				continue
			}
			for _, in := range b.Instrs {
				visit(Event{in, fr})
				call, ok := in.(ssa.CallInstruction)
				if !ok || d <= 0 {
					continue
				}
				t := Callee(call)
				if t == nil && fr.Site != nil {
					// a function-typed parameter of a helper frame called in it: the literal (or function) the caller
					// handed over runs here (`runGuarded(t, func(t *T) { … })`)
					if p, isP := Strip(call.Common().Value).(*ssa.Parameter); isP && p.Parent() == fr.Fn {
						if idx := paramIndex(p); idx >= 0 && idx < len(fr.Site.Common().Args) {
							switch a := Strip(fr.Site.Common().Args[idx]).(type) {
							case *ssa.MakeClosure:
								if f, ok := a.Fn.(*ssa.Function); ok && f.Synthetic == "" {
									t = f
								}
							case *ssa.Function:
								t = a
							}
						}
					}
				}
				if t == nil || stack[t] || !inlinable(call, t) {
					continue
				}
				stack[t] = true
				walk(&Frame{Fn: t, Site: call, Parent: fr}, d-1, stack)
				delete(stack, t)
			}
		}
	}
	walk(&Frame{Fn: root}, depth, map[*ssa.Function]bool{root: true})
}

// FlatCalls collects the call events of root (through helpers) whose callee satisfies pred; dynamic calls
// are offered with a nil callee.
func FlatCalls(root *ssa.Function, depth int, pred func(call ssa.CallInstruction, callee *ssa.Function) bool) []Event {
	var out []Event
	Flatten(root, depth, nil, func(e Event) {
		if c := e.Call(); c != nil && pred(c, Callee(c)) {
			out = append(out, e)
		}
	})
	return out
}

// Before reports whether event a executes before event b on every path to b (same root).
func Before(a, b Event) bool {
	ca, cb := chain(a), chain(b)
	// a deferred call registered inside a helper frame runs when that frame exits: seen from outside it happens at the
	// frame's call site, so its own position inside the frame is dropped
	trim := func(c []ssa.Instruction) []ssa.Instruction {
		for len(c) > 1 {
			if _, isDefer := c[len(c)-1].(*ssa.Defer); !isDefer {
				break
			}
			c = c[:len(c)-1]
		}
		return c
	}
	// two pieces of deferred work of the same frame (a deferred call, and something inside a deferred literal): last
	// registered runs first, whatever lies below the two defers
	for i := 0; i < len(ca) && i < len(cb); i++ {
		if ca[i] == cb[i] {
			continue
		}
		_, da := ca[i].(*ssa.Defer)
		_, db := cb[i].(*ssa.Defer)
		if da && db {
			return Dominates(cb[i], ca[i])
		}
		break
	}
	if len(ca) != len(cb) || len(ca) < 2 || ca[len(ca)-2] != cb[len(cb)-2] {
		// only when the two do not sit in the same innermost frame
		ta, tb := trim(ca), trim(cb)
		if !(len(ta) == len(tb) && len(ta) > 0 && ta[len(ta)-1] == tb[len(tb)-1]) {
			ca, cb = ta, tb
		}
	}
	for i := 0; i < len(ca) && i < len(cb); i++ {
		if ca[i] == cb[i] {
			continue
		}
		// deferred work runs when the frame exits, last registered first
		_, da := ca[i].(*ssa.Defer)
		_, db := cb[i].(*ssa.Defer)
		switch {
		case da && db:
			return Dominates(cb[i], ca[i])
		case da:
			return false
		case db:
			// b runs when the frame exits: a precedes it when a always runs before the registration, or always
			// runs after it (b's registration dominates a and every path from it to the exit passes a)
			if Dominates(ca[i], cb[i]) {
				return true
			}
			return Dominates(cb[i], ca[i]) && NewPostDom(ca[i].Parent()).PostDominates(ca[i], cb[i])
		default:
			return Dominates(ca[i], cb[i])
		}
	}
	return false
}

// chain lists the instructions from the root frame down to the event.
func chain(e Event) []ssa.Instruction {
	var rev []ssa.Instruction
	rev = append(rev, e.Instr)
	for f := e.Frame; f.Parent != nil; f = f.Parent {
		rev = append(rev, f.Site)
	}
	out := make([]ssa.Instruction, len(rev))
	for i := range rev {
		out[i] = rev[len(rev)-1-i]
	}
	return out
}

// GuardsOfEvent lists the branch conditions holding at the event, frame by frame (conditions are values of
// their own frame; use Event{g.If, frame}.Translate for operands).
type FrameGuard struct {
	Guard
	Frame *Frame
}

func GuardsOfEvent(e Event) []FrameGuard {
	var out []FrameGuard
	in := e.Instr
	for f := e.Frame; f != nil; f = f.Parent {
		for _, g := range GuardsOf(in.Block()) {
			out = append(out, FrameGuard{g, f})
		}
		if f.Parent == nil {
			break
		}
		in = f.Site
	}
	return out
}

// FV is a value together with the (virtual) frame it belongs to.
type FV struct {
	V ssa.Value
	F *Frame
}

// RootFV wraps a value of fn's own frame.
func RootFV(fn *ssa.Function, v ssa.Value) FV { return FV{v, &Frame{Fn: fn}} }

// EventFV wraps a value of the event's frame.
func EventFV(e Event, v ssa.Value) FV { return FV{v, e.Frame} }

// Resolve follows a value through loads and conversions, parameters of helper frames (to the caller's
// argument) and single-return module helpers (to the returned value, in a new frame) until it reaches a
// defining construct. stop names helpers that are not looked into. The trace lists the helper calls passed.
func (x FV) Resolve(stop func(*ssa.Function) bool) FV {
	r, _ := x.ResolveTrace(stop)
	return r
}

func (x FV) ResolveTrace(stop func(*ssa.Function) bool) (FV, []FV) {
	var trace []FV
	up := 0
	for i := 0; i < 24; i++ {
		v := Strip(x.V)
		switch y := v.(type) {
		case *ssa.Parameter:
			if (x.F == nil || x.F.Parent == nil) && (x.F == nil || y.Parent() == x.F.Fn) {
				// the outermost frame: a parameter of an unexported function that is called from exactly one place
				// takes the argument given there (the caller becomes the outer frame)
				if site := singleCaller(y.Parent()); site != nil && resolveUp {
					idx := paramIndex(y)
					if idx >= 0 && idx < len(site.Common().Args) {
						up++
						if up > 3 {
							return FV{v, x.F}, trace
						}
						x = FV{site.Common().Args[idx], &Frame{Fn: site.Parent()}}
						continue
					}
				}
				return FV{v, x.F}, trace
			}
			if x.F == nil || x.F.Parent == nil || y.Parent() != x.F.Fn {
				return FV{v, x.F}, trace
			}
			idx := paramIndex(y)
			args := x.F.Site.Common().Args
			if idx < 0 || idx >= len(args) {
				return FV{v, x.F}, trace
			}
			x = FV{args[idx], x.F.Parent}
		case *ssa.FreeVar:
			// a captured variable of a literal running inside the function that created it
			if x.F == nil || x.F.Parent == nil || y.Parent() != x.F.Fn {
				return FV{v, x.F}, trace
			}
			// the frame of the function that created the literal: the caller, or — when the literal was handed to a
			// helper which calls it — a frame further out
			creator := x.F.Parent
			for creator != nil && creator.Fn != x.F.Fn.Parent() {
				creator = creator.Parent
			}
			if creator == nil {
				return FV{v, x.F}, trace
			}
			al, isAl := FreeVarBinding(y).(*ssa.Alloc)
			if !isAl {
				// the captured variable's cell is some other address of the creator's frame (a per-iteration loop
				// variable: a phi of cells); addresses stand for their loads here, as with fields
				if b := FreeVarBinding(y); b != nil {
					x = FV{b, creator}
					continue
				}
				return FV{v, x.F}, trace
			}
			sts := StoresTo(al)
			if len(sts) != 1 {
				return FV{v, x.F}, trace
			}
			x = FV{sts[0].Val, creator}
		case *ssa.FieldAddr, *ssa.Field:
			// a field of a struct built locally (a literal, possibly handed to a helper by value): the value it was
			// given there
			var bx ssa.Value
			var fld *types.Var
			switch z := y.(type) {
			case *ssa.FieldAddr:
				bx, fld = z.X, FieldOfAddr(z)
			case *ssa.Field:
				bx, fld = z.X, FieldOfAddr(z)
			}
			if _, isParamOrLocal := Strip(bx).(*ssa.Global); isParamOrLocal || fld == nil {
				return FV{v, x.F}, trace
			}
			base := FV{bx, x.F}.Resolve(stop)
			al, isAl := base.V.(*ssa.Alloc)
			for k := 0; isAl && k < 4; k++ {
				// a by-value copy (a spilled value receiver or parameter): go to what was copied
				whole := StoresTo(al)
				if len(whole) != 1 {
					break
				}
				base = FV{whole[0].Val, base.F}.Resolve(stop)
				al, isAl = base.V.(*ssa.Alloc)
			}
			if !isAl {
				return FV{v, x.F}, trace
			}
			if _, isStruct := al.Type().(*types.Pointer).Elem().Underlying().(*types.Struct); !isStruct {
				return FV{v, x.F}, trace
			}
			vals := LiteralFieldStores(al)[fld.Name()]
			if len(vals) != 1 {
				return FV{v, x.F}, trace
			}
			x = FV{vals[0], base.F}
		case *ssa.Extract:
			// one result of a helper with several results and a single return statement
			call, isCall := y.Tuple.(*ssa.Call)
			if !isCall {
				return FV{v, x.F}, trace
			}
			f := Callee(call)
			if f == nil || f.Blocks == nil || !core.InModule(f) || (stop != nil && stop(f)) {
				return FV{v, x.F}, trace
			}
			rets := Returns(f)
			if len(rets) > 1 {
				// (value, error) helpers: the value on the one successful return
				var okRets []*ssa.Return
				for _, r := range rets {
					last := r.Results[len(r.Results)-1]
					if k, isK := last.(*ssa.Const); isK && k.IsNil() && isErrorType(last.Type()) {
						okRets = append(okRets, r)
					}
				}
				rets = okRets
			}
			if len(rets) != 1 || y.Index >= len(rets[0].Results) {
				return FV{v, x.F}, trace
			}
			trace = append(trace, FV{v, x.F})
			x = FV{rets[0].Results[y.Index], &Frame{Fn: f, Site: call, Parent: x.F}}
		case *ssa.Call:
			f := Callee(y)
			if f == nil || f.Blocks == nil || !core.InModule(f) || (stop != nil && stop(f)) {
				return FV{v, x.F}, trace
			}
			rets := Returns(f)
			if len(rets) != 1 || len(rets[0].Results) != 1 {
				return FV{v, x.F}, trace
			}
			trace = append(trace, FV{v, x.F})
			x = FV{rets[0].Results[0], &Frame{Fn: f, Site: y, Parent: x.F}}
		default:
			return FV{v, x.F}, trace
		}
	}
	return x, trace
}

// ParamIndex is the position of p among its function's parameters (receiver first).
func ParamIndex(p *ssa.Parameter) int { return paramIndex(p) }

// OutOfGoroutine follows a value used inside a goroutine body back to the function that started it: a captured
// variable to its binding, a parameter of a function started by exactly one `go` statement to that statement's
// argument.
func OutOfGoroutine(all []*ssa.Function, v ssa.Value) ssa.Value {
	v = Strip(v)
	for i := 0; i < 4; i++ {
		switch x := v.(type) {
		case *ssa.FreeVar:
			b := FreeVarBinding(x)
			if al, ok := b.(*ssa.Alloc); ok {
				if sts := StoresTo(al); len(sts) == 1 {
					v = Strip(sts[0].Val)
					continue
				}
			} else if b != nil {
				v = Strip(b)
				continue
			}
		case *ssa.Parameter:
			if gos := GoTargetOf(all, x.Parent()); len(gos) == 1 {
				if idx := paramIndex(x); idx >= 0 && idx < len(gos[0].Call.Args) {
					v = Strip(gos[0].Call.Args[idx])
					continue
				}
			}
		}
		break
	}
	return v
}

// Chain lists the instructions from the root frame down to the event.
func Chain(e Event) []ssa.Instruction { return chain(e) }

func isErrorType(t types.Type) bool {
	return types.Identical(t, types.Universe.Lookup("error").Type())
}

// ResolveUp is Resolve that, at the outermost frame, also follows a parameter of an unexported function with exactly
// one call site to the argument given there.
func (x FV) ResolveUp(stop func(*ssa.Function) bool) FV {
	saved := resolveUp
	resolveUp = true
	defer func() { resolveUp = saved }()
	r, _ := x.ResolveTrace(stop)
	return r
}

var resolveUp bool

// the program under analysis (for whole-program questions asked during value resolution)
var program *core.Ctx
var singleCallerCache = map[*ssa.Function]ssa.CallInstruction{}

// SetProgram tells the resolver which program it works on.
func SetProgram(c *core.Ctx) {
	if program != c {
		program = c
		singleCallerCache = map[*ssa.Function]ssa.CallInstruction{}
	}
}

// singleCaller: fn is an unexported, named module function called (synchronously, statically) from exactly one place
// and never taken as a value.
func singleCaller(fn *ssa.Function) ssa.CallInstruction {
	if program == nil || fn == nil || fn.Parent() != nil || fn.Object() == nil || fn.Object().Exported() || !core.InModule(fn) {
		return nil
	}
	if s, ok := singleCallerCache[fn]; ok {
		return s
	}
	var site ssa.CallInstruction
	n := 0
	for _, g := range program.AllFuncs {
		for _, b := range g.Blocks {
			for _, in := range b.Instrs {
				if call, ok := in.(ssa.CallInstruction); ok && Callee(call) == fn {
					if _, plain := call.(*ssa.Call); plain {
						site = call
					}
					n++
					continue
				}
				for _, op := range in.Operands(nil) {
					if *op == ssa.Value(fn) {
						n += 2 // taken as a value
					}
				}
			}
		}
	}
	if n != 1 {
		site = nil
	}
	singleCallerCache[fn] = site
	return site
}
