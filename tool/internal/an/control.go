package an

import (
	"go/token"

	"golang.org/x/tools/go/ssa"
)

// Guard describes an If whose outcome decides whether a block runs.
type Guard struct {
	If       *ssa.If
	Cond     ssa.Value // condition with leading negations removed
	Polarity bool      // the block runs only when Cond == Polarity
	// Tr translates operands of Cond into the guarded function's frame when the condition was expanded
	// from a bool helper (nil otherwise).
	Tr func(ssa.Value) ssa.Value
}

// GuardsOf lists the branch conditions that must hold for block b to execute: for every If whose one
// successor dominates b while the other does not reach b without passing the first... (approximated by
// dominance: successor k dominates b and the other successor does not dominate b and b is not the If's
// own block).
func GuardsOf(b *ssa.BasicBlock) []Guard {
	var out []Guard
	fn := b.Parent()
	for _, x := range fn.Blocks {
		if len(x.Instrs) == 0 {
			continue
		}
		iff, ok := x.Instrs[len(x.Instrs)-1].(*ssa.If)
		if !ok {
			continue
		}
		t, f := x.Succs[0], x.Succs[1]
		domT := (t == b || t.Dominates(b)) && len(t.Preds) == 1
		domF := (f == b || f.Dominates(b)) && len(f.Preds) == 1
		if domT == domF {
			continue
		}
		cond := iff.Cond
		pol := domT
		for {
			u, ok := cond.(*ssa.UnOp)
			if !ok || u.Op != token.NOT {
				break
			}
			cond = u.X
			pol = !pol
		}
		out = append(out, Guard{If: iff, Cond: cond, Polarity: pol})
		// a condition computed by a bool helper: also offer the helper's own comparisons when the helper can
		// produce this value in exactly one way (a conjunction)
		if alts := ExpandLit(Lit{Cond: cond, Val: pol, If: iff}, 2, nil); len(alts) == 1 {
			for _, l := range alts[0] {
				if l.Cond == cond {
					continue
				}
				out = append(out, Guard{If: iff, Cond: l.Cond, Polarity: l.Val, Tr: l.Tr})
			}
		}
	}
	return out
}

// NaturalLoopOf returns the blocks of the innermost natural loop containing b (nil if none) and its header.
func NaturalLoopOf(b *ssa.BasicBlock) (map[*ssa.BasicBlock]bool, *ssa.BasicBlock) {
	fn := b.Parent()
	loops := map[*ssa.BasicBlock]map[*ssa.BasicBlock]bool{} // header -> union of its back edges' loops
	for _, tail := range fn.Blocks {
		for _, head := range tail.Succs {
			if !(head == tail || head.Dominates(tail)) {
				continue
			}
			loop := loops[head]
			if loop == nil {
				loop = map[*ssa.BasicBlock]bool{head: true}
				loops[head] = loop
			}
			stack := []*ssa.BasicBlock{tail}
			for len(stack) > 0 {
				x := stack[len(stack)-1]
				stack = stack[:len(stack)-1]
				if loop[x] {
					continue
				}
				loop[x] = true
				stack = append(stack, x.Preds...)
			}
		}
	}
	var best map[*ssa.BasicBlock]bool
	var bestHead *ssa.BasicBlock
	for head, loop := range loops {
		if !loop[b] {
			continue
		}
		if best == nil || len(loop) < len(best) {
			best, bestHead = loop, head
		}
	}
	return best, bestHead
}

// T applies the guard's translation.
func (g Guard) T(v ssa.Value) ssa.Value {
	if g.Tr == nil {
		return v
	}
	return g.Tr(v)
}
