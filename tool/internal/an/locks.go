package an

import (
	"go/types"
	"sort"
	"strings"

	"golang.org/x/tools/go/ssa"
)

// LockOp is a sync.Mutex / sync.RWMutex method call on a struct field (or a sync.Locker invoke on a
// value loaded from a struct field, as with sync.Cond.L).
type LockOp struct {
	Call     ssa.CallInstruction
	Field    *types.Var // the mutex field (or the Cond field for Cond.L)
	Base     string     // provenance of the struct holding it
	Op       string     // Lock, Unlock, RLock, RUnlock
	Deferred bool
}

// LockOpOf classifies a call instruction as a lock operation.
func LockOpOf(call ssa.CallInstruction) *LockOp {
	cc := call.Common()
	_, deferred := call.(*ssa.Defer)
	name := ""
	var recv ssa.Value
	if cc.IsInvoke() {
		name = cc.Method.Name()
		recv = cc.Value
		if !(name == "Lock" || name == "Unlock") {
			return nil
		}
		if !IsNamed(cc.Value.Type(), "sync", "Locker") {
			return nil
		}
	} else {
		f := Callee(call)
		if f == nil || f.Pkg == nil || f.Pkg.Pkg.Path() != "sync" || f.Signature.Recv() == nil {
			return nil
		}
		if !(IsNamed(f.Signature.Recv().Type(), "sync", "Mutex") || IsNamed(f.Signature.Recv().Type(), "sync", "RWMutex")) {
			return nil
		}
		name = f.Name()
		if len(cc.Args) == 0 {
			return nil
		}
		recv = cc.Args[0]
	}
	switch name {
	case "Lock", "Unlock", "RLock", "RUnlock":
	default:
		return nil
	}
	t := Terminal(recv)
	// Cond.L: FieldAddr(cond, L) where cond is itself loaded from a struct field
	var fld *types.Var
	base := ""
	switch x := t.(type) {
	case *ssa.FieldAddr:
		fld = FieldOfAddr(x)
		if fld.Name() == "L" && IsNamed(x.X.Type(), "sync", "Cond") {
			if inner, ok := Terminal(x.X).(*ssa.FieldAddr); ok {
				fld = FieldOfAddr(inner)
				base = D().Of(inner.X)
			}
		} else {
			base = D().Of(x.X)
		}
	default:
		return nil
	}
	return &LockOp{Call: call, Field: fld, Base: strings.ReplaceAll(base, "^", ""), Op: name, Deferred: deferred}
}

// Held is a lock-state fact: mutex field (+ base provenance) held in mode W or R.
type Held struct {
	Field *types.Var
	Base  string
	Mode  byte // 'W' or 'R'
}

func (h Held) key() string { return h.Base + "." + h.Field.Name() + ":" + string(h.Mode) }

// LockState is the must-hold lock set before every instruction of a function (analysis D).
type LockState struct {
	fn  *ssa.Function
	in  []map[string]Held // per block, at entry
	ops map[ssa.Instruction]*LockOp
}

func NewLockState(fn *ssa.Function) *LockState {
	ls := &LockState{fn: fn, ops: map[ssa.Instruction]*LockOp{}}
	for _, c := range AllCalls(fn) {
		if op := LockOpOf(c); op != nil {
			ls.ops[c] = op
		}
	}
	n := len(fn.Blocks)
	ls.in = make([]map[string]Held, n)
	out := make([]map[string]Held, n)
	visited := make([]bool, n)
	ls.in[0] = map[string]Held{}
	work := []int{0}
	for len(work) > 0 {
		bi := work[0]
		work = work[1:]
		b := fn.Blocks[bi]
		cur := clone(ls.in[bi])
		for _, in := range b.Instrs {
			ls.apply(cur, in)
		}
		if visited[bi] && equal(out[bi], cur) {
			continue
		}
		visited[bi] = true
		out[bi] = cur
		for _, s := range b.Succs {
			if ls.in[s.Index] == nil {
				ls.in[s.Index] = clone(cur)
				work = append(work, s.Index)
				continue
			}
			m := intersect(ls.in[s.Index], cur)
			if !equal(m, ls.in[s.Index]) {
				ls.in[s.Index] = m
				work = append(work, s.Index)
			} else if !visited[s.Index] {
				work = append(work, s.Index)
			}
		}
	}
	return ls
}

func (ls *LockState) apply(cur map[string]Held, in ssa.Instruction) {
	op := ls.ops[in]
	if op == nil || op.Deferred {
		return
	}
	switch op.Op {
	case "Lock":
		h := Held{op.Field, op.Base, 'W'}
		cur[h.key()] = h
	case "RLock":
		h := Held{op.Field, op.Base, 'R'}
		cur[h.key()] = h
	case "Unlock":
		delete(cur, Held{op.Field, op.Base, 'W'}.key())
	case "RUnlock":
		delete(cur, Held{op.Field, op.Base, 'R'}.key())
	}
}

// At returns the locks certainly held just before the instruction executes.
func (ls *LockState) At(in ssa.Instruction) []Held {
	b := in.Block()
	if ls.in[b.Index] == nil {
		return nil
	}
	cur := clone(ls.in[b.Index])
	for _, x := range b.Instrs {
		if x == in {
			break
		}
		ls.apply(cur, x)
	}
	var out []Held
	for _, h := range cur {
		out = append(out, h)
	}
	sort.Slice(out, func(i, j int) bool { return out[i].key() < out[j].key() })
	return out
}

// Acquires lists the lock acquisitions (Lock/RLock, non-deferred) performed directly in fn.
func (ls *LockState) Acquires() []*LockOp {
	var out []*LockOp
	for _, b := range ls.fn.Blocks {
		for _, in := range b.Instrs {
			if op := ls.ops[in]; op != nil && !op.Deferred && (op.Op == "Lock" || op.Op == "RLock") {
				out = append(out, op)
			}
		}
	}
	return out
}

func clone(m map[string]Held) map[string]Held {
	o := make(map[string]Held, len(m))
	for k, v := range m {
		o[k] = v
	}
	return o
}

func equal(a, b map[string]Held) bool {
	if len(a) != len(b) {
		return false
	}
	for k := range a {
		if _, ok := b[k]; !ok {
			return false
		}
	}
	return true
}

func intersect(a, b map[string]Held) map[string]Held {
	o := map[string]Held{}
	for k, v := range a {
		if _, ok := b[k]; ok {
			o[k] = v
		}
	}
	return o
}
