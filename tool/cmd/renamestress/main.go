// renamestress rewrites a copy of the repository so that every receiver, parameter and named result of the
// module's non-test functions carries a different name (and, with -locals, every local variable too). The result
// behaves exactly as before; it is used to produce a control for the self-test: a rule that recognises something
// by what a parameter or receiver happens to be called fires on it.
package main

import (
	"bytes"
	"flag"
	"fmt"
	"go/ast"
	"go/format"
	"go/types"
	"os"
	"strings"

	"golang.org/x/tools/go/packages"
)

func main() {
	dir := flag.String("dir", ".", "root of the repository copy to rewrite")
	locals := flag.Bool("locals", false, "also rename local variables")
	flag.Parse()
	cfg := &packages.Config{Mode: packages.LoadSyntax, Dir: *dir}
	pkgs, err := packages.Load(cfg, "./...")
	if err != nil {
		fmt.Fprintln(os.Stderr, err)
		os.Exit(2)
	}
	n := 0
	for _, p := range pkgs {
		if len(p.Errors) > 0 {
			fmt.Fprintln(os.Stderr, p.Errors)
			os.Exit(2)
		}
		rename := map[types.Object]string{}
		for _, f := range p.Syntax {
			ast.Inspect(f, func(nd ast.Node) bool {
				var ft *ast.FuncType
				var recv *ast.FieldList
				switch x := nd.(type) {
				case *ast.FuncDecl:
					ft, recv = x.Type, x.Recv
				case *ast.FuncLit:
					ft = x.Type
				default:
					if *locals {
						if as, ok := nd.(*ast.AssignStmt); ok {
							for _, l := range as.Lhs {
								if id, ok := l.(*ast.Ident); ok && id.Name != "_" {
									if o := p.TypesInfo.Defs[id]; o != nil {
										if v, ok := o.(*types.Var); ok && !v.IsField() && v.Parent() != p.Types.Scope() {
											rename[o] = id.Name + "Loc"
										}
									}
								}
							}
						}
					}
					return true
				}
				mark := func(fl *ast.FieldList, suffix string) {
					if fl == nil {
						return
					}
					for _, fld := range fl.List {
						for _, id := range fld.Names {
							if id.Name == "_" {
								continue
							}
							if o := p.TypesInfo.Defs[id]; o != nil {
								rename[o] = id.Name + suffix
							}
						}
					}
				}
				mark(recv, "Self")
				mark(ft.Params, "Arg")
				mark(ft.Results, "Res")
				return true
			})
		}
		for i, f := range p.Syntax {
			changed := false
			ast.Inspect(f, func(nd ast.Node) bool {
				id, ok := nd.(*ast.Ident)
				if !ok {
					return true
				}
				o := p.TypesInfo.Defs[id]
				if o == nil {
					o = p.TypesInfo.Uses[id]
				}
				if nn, ok := rename[o]; ok && o != nil {
					id.Name = nn
					changed = true
					n++
				}
				return true
			})
			if !changed || strings.HasSuffix(p.CompiledGoFiles[i], "_test.go") {
				continue
			}
			var buf bytes.Buffer
			if err := format.Node(&buf, p.Fset, f); err != nil {
				fmt.Fprintln(os.Stderr, err)
				os.Exit(2)
			}
			if err := os.WriteFile(p.CompiledGoFiles[i], buf.Bytes(), 0o644); err != nil {
				fmt.Fprintln(os.Stderr, err)
				os.Exit(2)
			}
		}
	}
	fmt.Printf("renamed %d identifiers in %d packages\n", n, len(pkgs))
}
