// f1lint decides the f1 properties by static analysis of /repo's current source.
package main

import (
	"encoding/json"
	"flag"
	"fmt"
	"os"
	"path/filepath"
	"strconv"
	"strings"
	"time"

	"f1verif/internal/core"
	"f1verif/internal/rules"
)

func main() {
	prop := flag.String("prop", "", "property id (C01..C20) or 'all'")
	tier := flag.String("tier", "quick", "quick|thorough")
	repo := flag.String("repo", "/repo", "repository root")
	verif := flag.String("verif", "/verif", "verification directory (evidence, known findings)")
	overlay := flag.String("overlay", "", "directory of replacement sources (repo-relative paths)")
	filter := flag.String("filter", "", "only report this rule or rule-construct (replay)")
	goarch := flag.String("goarch", "", "GOARCH for loading")
	noEvidence := flag.Bool("no-evidence", false, "write evidence to a scratch dir (self-test runs)")
	dump := flag.String("dump", "", "debug: print the SSA of functions whose name contains this string")
	var extras extraFlags
	flag.Var(&extras, "extra", "key=path: include the JSON file under coverage[key] of the evidence (repeatable)")
	flag.Parse()
	if *dump != "" {
		c, err := core.Load(*repo, *overlay, *goarch)
		if err != nil {
			fmt.Println(err)
			os.Exit(2)
		}
		for _, f := range c.AllFuncs {
			if strings.Contains(core.FuncName(f), *dump) {
				f.WriteTo(os.Stdout)
			}
		}
		return
	}

	started := time.Now()
	seed, _ := strconv.Atoi(os.Getenv("VERIF_SEED"))
	if *prop == "" {
		fmt.Fprintln(os.Stderr, "usage: f1lint -prop Cxx|all [-tier quick|thorough]")
		os.Exit(2)
	}
	ids := []string{*prop}
	if *prop == "all" {
		ids = rules.Props()
	}
	for _, id := range ids {
		if rules.Get(id) == nil {
			fmt.Printf("UNDECIDED property=%s: no rules registered\n", id)
			os.Exit(2)
		}
	}
	c, err := core.Load(*repo, *overlay, *goarch)
	if err != nil {
		for _, id := range ids {
			fmt.Printf("UNDECIDED property=%s: loading %s failed: %v\n", id, *repo, err)
		}
		os.Exit(2)
	}
	c.Tier = *tier
	known, err := core.LoadKnown(filepath.Join(*verif, "known_findings.json"))
	if err != nil {
		fmt.Printf("UNDECIDED: known_findings.json unreadable: %v\n", err)
		os.Exit(2)
	}
	outDir := *verif
	if *noEvidence {
		d, err := os.MkdirTemp("", "f1lint-ev")
		if err != nil {
			os.Exit(2)
		}
		defer os.RemoveAll(d)
		outDir = d
	}
	exit := 0
	for _, id := range ids {
		t0 := started
		if len(ids) > 1 {
			t0 = time.Now()
		}
		rep := core.NewReport(id)
		for _, e := range extras {
			kv := strings.SplitN(e, "=", 2)
			if len(kv) != 2 {
				continue
			}
			b, err := os.ReadFile(kv[1])
			if err != nil {
				continue
			}
			var v any
			if json.Unmarshal(b, &v) == nil {
				rep.Extra[kv[0]] = v
			}
		}
		func() {
			defer func() {
				if e := recover(); e != nil {
					rep.Rule(id+".R0", "property driver")
					rep.Undecided("panic", "-", "driver panic: %v", e)
				}
			}()
			rules.Get(id)(c, rep)
		}()
		code := rep.Finish(c, known, outDir, *tier, seed, t0, *filter)
		if code == 1 || (code == 2 && exit == 0) {
			exit = code
		}
	}
	if *noEvidence && exit == 1 {
		// replay files vanish with the scratch dir; say so
		fmt.Println(strings.TrimSpace("note: self-test run, replay files were written to a scratch directory"))
	}
	os.Exit(exit)
}

type extraFlags []string

func (e *extraFlags) String() string     { return strings.Join(*e, ",") }
func (e *extraFlags) Set(v string) error { *e = append(*e, v); return nil }
